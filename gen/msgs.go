package gen

import (
	"fmt"
	"math/big"
	"sort"
	"time"

	"pgregory.net/rapid"

	simchannel "perun.network/go-perun/backend/sim/channel"
	simwallet "perun.network/go-perun/backend/sim/wallet"
	simwire "perun.network/go-perun/backend/sim/wire"
	"perun.network/go-perun/channel"
	"perun.network/go-perun/client"
	"perun.network/go-perun/wallet"
	"perun.network/go-perun/wire"
)

// ---------------------------------------------------------------- address maps

// WireEntry is one entry of a wire address map.
type WireEntry struct {
	Key  int `json:"k"`
	Addr Hex `json:"a"` // 32 bytes
}

// WireMap is a wire address map (sorted by key in canonical form).
type WireMap []WireEntry

// Build converts to the go-perun value (always a non-nil map).
func (m WireMap) Build() map[wallet.BackendID]wire.Address {
	out := make(map[wallet.BackendID]wire.Address, len(m))
	for _, e := range m {
		a := simwire.NewAddress()
		copy(a[:], e.Addr.Bytes())
		out[wallet.BackendID(e.Key)] = a
	}
	return out
}

// UnWireMap converts back to the spec form.
func UnWireMap(m map[wallet.BackendID]wire.Address) WireMap {
	out := WireMap{}
	for k, a := range m {
		b, _ := a.MarshalBinary()
		out = append(out, WireEntry{Key: int(k), Addr: HexOf(b)})
	}
	sort.Slice(out, func(i, j int) bool { return out[i].Key < out[j].Key })
	return out
}

// WalletMap is a wallet address map: key 0 -> 64 byte sim address.  Only
// backend 0 is registered in this repository, so a well-formed map has at most
// that one entry.
type WalletMap []WireEntry

// Build converts to the go-perun value.
func (m WalletMap) Build() map[wallet.BackendID]wallet.Address {
	out := make(map[wallet.BackendID]wallet.Address, len(m))
	for _, e := range m {
		a := &simwallet.Address{}
		if err := a.UnmarshalBinary(e.Addr.Bytes()); err != nil {
			panic(err)
		}
		out[wallet.BackendID(e.Key)] = a
	}
	return out
}

// UnWalletMap converts back to the spec form.
func UnWalletMap(m map[wallet.BackendID]wallet.Address) WalletMap {
	out := WalletMap{}
	for k, a := range m {
		b, _ := a.MarshalBinary()
		out = append(out, WireEntry{Key: int(k), Addr: HexOf(b)})
	}
	sort.Slice(out, func(i, j int) bool { return out[i].Key < out[j].Key })
	return out
}

// GenWireMap draws a wire address map with 0-3 entries (keys 0..3).
func GenWireMap() *rapid.Generator[WireMap] {
	return rapid.Custom(func(t *rapid.T) WireMap {
		n := []int{1, 1, 1, 1, 0, 2, 2, 3}[rapid.IntRange(0, 7).Draw(t, "nwire")]
		keys := rapid.Permutation([]int{0, 1, 2, 3}).Draw(t, "keys")[:n]
		if n == 1 && rapid.IntRange(0, 3).Draw(t, "key0") != 0 {
			keys[0] = 0
		}
		sort.Ints(keys)
		m := WireMap{}
		for _, k := range keys {
			m = append(m, WireEntry{Key: k, Addr: HexOf(rapid.SliceOfN(rapid.Byte(), 32, 32).Draw(t, "waddr"))})
		}
		return m
	})
}

// GenWalletMap draws a wallet address map: {0: addr} (sometimes empty).
func GenWalletMap() *rapid.Generator[WalletMap] {
	return rapid.Custom(func(t *rapid.T) WalletMap {
		if rapid.IntRange(0, 9).Draw(t, "emptywallet") == 0 {
			return WalletMap{}
		}
		return WalletMap{{Key: 0, Addr: HexOf(rapid.SliceOfN(rapid.Byte(), 64, 64).Draw(t, "addr"))}}
	})
}

// ---------------------------------------------------------------- params, transactions

// ParamsSpec describes channel.Params.
type ParamsSpec struct {
	ChallengeDuration uint64      `json:"cd"`
	Parts             []WalletMap `json:"parts"`
	App               AppSpec     `json:"app"`
	Nonce             Big         `json:"nonce"`
	Ledger            bool        `json:"ledger"`
	Virtual           bool        `json:"virtual"`
	Aux               Hex         `json:"aux"` // up to 256 bytes, right padded
}

// Build converts to the go-perun value (NewParams; panics on invalid specs).
func (p ParamsSpec) Build() *channel.Params {
	parts := make([]map[wallet.BackendID]wallet.Address, len(p.Parts))
	for i, m := range p.Parts {
		parts[i] = m.Build()
	}
	var aux channel.Aux
	copy(aux[:], p.Aux.Bytes())
	pp, err := channel.NewParams(p.ChallengeDuration, parts, p.App.Build(), p.Nonce.Int(), p.Ledger, p.Virtual, aux)
	if err != nil {
		panic("gen.ParamsSpec.Build: " + err.Error())
	}
	return pp
}

// UnParams converts back.
func UnParams(p *channel.Params) ParamsSpec {
	s := ParamsSpec{ChallengeDuration: p.ChallengeDuration, App: UnApp(p.App), Nonce: BigOf(p.Nonce),
		Ledger: p.LedgerChannel, Virtual: p.VirtualChannel, Aux: trimAux(p.Aux)}
	s.Parts = make([]WalletMap, len(p.Parts))
	for i, m := range p.Parts {
		s.Parts[i] = UnWalletMap(m)
	}
	return s
}

func trimAux(a channel.Aux) Hex {
	n := len(a)
	for n > 0 && a[n-1] == 0 {
		n--
	}
	return HexOf(a[:n])
}

// UnApp converts an app back to its spec.
func UnApp(a channel.App) AppSpec {
	if a == nil || channel.IsNoApp(a) {
		return AppSpec{Kind: "none"}
	}
	b, _ := a.Def().MarshalBinary()
	kind := "mock"
	if len(b) > 0 && b[0] == PaymentDefByte {
		kind = "payment"
	}
	return AppSpec{Kind: kind, Def: HexOf(b)}
}

// GenParams draws valid parameters with n participants (0 = draw 2..5).
func GenParams(n int) *rapid.Generator[ParamsSpec] {
	return rapid.Custom(func(t *rapid.T) ParamsSpec {
		if n == 0 {
			n = []int{2, 2, 2, 3, 4, 5}[rapid.IntRange(0, 5).Draw(t, "nparts")]
		}
		var p ParamsSpec
		p.ChallengeDuration = rapid.Uint64Range(1, ^uint64(0)).Draw(t, "cd")
		if rapid.Bool().Draw(t, "smallcd") {
			p.ChallengeDuration = rapid.Uint64Range(1, 100).Draw(t, "cd2")
		}
		for i := 0; i < n; i++ {
			p.Parts = append(p.Parts, WalletMap{{Key: 0, Addr: HexOf(rapid.SliceOfN(rapid.Byte(), 64, 64).Draw(t, "part"))}})
		}
		p.App = GenApp().Draw(t, "app")
		nb := rapid.IntRange(0, 32).Draw(t, "noncelen")
		p.Nonce = BigOf(new(big.Int).SetBytes(rapid.SliceOfN(rapid.Byte(), nb, nb).Draw(t, "nonce")))
		p.Ledger = rapid.Bool().Draw(t, "ledger")
		p.Virtual = rapid.Bool().Draw(t, "virtual")
		na := []int{0, 0, 1, 32, 256}[rapid.IntRange(0, 4).Draw(t, "auxlen")]
		aux := rapid.SliceOfN(rapid.Byte(), na, na).Draw(t, "aux")
		var a channel.Aux
		copy(a[:], aux)
		p.Aux = trimAux(a)
		return p
	})
}

// UnAlloc converts an allocation back to its spec.
func UnAlloc(a *channel.Allocation) AllocSpec {
	var s AllocSpec
	s.Assets = make([]uint64, len(a.Assets))
	for i, as := range a.Assets {
		if sa, ok := as.(*simchannel.Asset); ok {
			s.Assets[i] = sa.ID
		}
	}
	s.Backends = make([]int, len(a.Backends))
	for i, b := range a.Backends {
		s.Backends[i] = int(b)
	}
	s.Bals = UnBalances(a.Balances)
	s.Locked = make([]SubAllocSpec, len(a.Locked))
	for i, l := range a.Locked {
		s.Locked[i] = UnSubAlloc(l)
	}
	return s
}

// UnBalances converts back.
func UnBalances(b channel.Balances) [][]Big {
	out := make([][]Big, len(b))
	for i, row := range b {
		out[i] = make([]Big, len(row))
		for j, v := range row {
			out[i][j] = BigOf(v)
		}
	}
	return out
}

// UnSubAlloc converts back (nil and empty index maps are both reported as empty).
func UnSubAlloc(l channel.SubAlloc) SubAllocSpec {
	s := SubAllocSpec{ID: HexOf(l.ID[:]), Bals: make([]Big, len(l.Bals)), IndexMap: []uint16{}}
	for i, v := range l.Bals {
		s.Bals[i] = BigOf(v)
	}
	for _, x := range l.IndexMap {
		s.IndexMap = append(s.IndexMap, uint16(x))
	}
	return s
}

// Norm normalises an allocation spec for comparison (nil == empty).
func (a AllocSpec) Norm() AllocSpec {
	c := a.Clone()
	if c.Assets == nil {
		c.Assets = []uint64{}
	}
	if c.Backends == nil {
		c.Backends = []int{}
	}
	if c.Bals == nil {
		c.Bals = [][]Big{}
	}
	if c.Locked == nil {
		c.Locked = []SubAllocSpec{}
	}
	for i := range c.Locked {
		c.Locked[i].NilMap = false
		if c.Locked[i].IndexMap == nil {
			c.Locked[i].IndexMap = []uint16{}
		}
		if c.Locked[i].Bals == nil {
			c.Locked[i].Bals = []Big{}
		}
	}
	return c
}

// UnState converts back.
func UnState(s *channel.State) StateSpec {
	out := StateSpec{ID: HexOf(s.ID[:]), Version: s.Version, App: UnApp(s.App), Final: s.IsFinal, Alloc: UnAlloc(&s.Allocation)}
	if op, ok := s.Data.(*channel.MockOp); ok {
		out.Op = uint64(*op)
	}
	return out
}

// Norm normalises a state spec.
func (s StateSpec) Norm() StateSpec {
	c := s
	c.Alloc = s.Alloc.Norm()
	if c.App.Kind == "" {
		c.App.Kind = "none"
	}
	if c.App.Kind != "mock" {
		c.Op = 0
	}
	return c
}

// SigSpec is one signature slot: "" = nil, otherwise 64 bytes hex.
type SigSpec = Hex

// BuildSigs converts signature slots.
func BuildSigs(s []SigSpec) []wallet.Sig {
	out := make([]wallet.Sig, len(s))
	for i, x := range s {
		if x != "" {
			out[i] = x.Bytes()
		}
	}
	return out
}

// UnSigs converts back (nil and empty are both "").
func UnSigs(s []wallet.Sig) []SigSpec {
	out := make([]SigSpec, len(s))
	for i, x := range s {
		out[i] = HexOf(x)
	}
	return out
}

// GenSigs draws n signature slots (64 random bytes or nil).
func GenSigs(n int) *rapid.Generator[[]SigSpec] {
	return rapid.Custom(func(t *rapid.T) []SigSpec {
		out := make([]SigSpec, n)
		mode := rapid.IntRange(0, 2).Draw(t, "sigmode") // all, none, mixed
		for i := range out {
			has := mode == 0 || (mode == 2 && rapid.Bool().Draw(t, "has"))
			if has {
				out[i] = HexOf(rapid.SliceOfN(rapid.Byte(), 64, 64).Draw(t, "sig"))
			}
		}
		return out
	})
}

// ---------------------------------------------------------------- messages

// PropSpec is the base of a channel proposal.
type PropSpec struct {
	ProposalID        Hex       `json:"pid"`
	ChallengeDuration uint64    `json:"cd"`
	NonceShare        Hex       `json:"share"`
	App               AppSpec   `json:"app"`
	Op                uint64    `json:"op"`
	InitBals          AllocSpec `json:"init"`
	Funding           [][]Big   `json:"funding"`
	Aux               Hex       `json:"aux"`
}

// MsgSpec describes any of the 17 wire messages.
type MsgSpec struct {
	Type string `json:"type"`
	// control
	Created int64  `json:"created,omitempty"`
	Reason  string `json:"reason,omitempty"`
	Sig     Hex    `json:"sig,omitempty"` // AuthResponse signature, update / acc signature
	// proposals
	Prop        *PropSpec  `json:"prop,omitempty"`
	Participant WalletMap  `json:"participant,omitempty"`
	Peers       []WireMap  `json:"peers,omitempty"`
	Parent      Hex        `json:"parent,omitempty"`
	Parents     []Hex      `json:"parents,omitempty"`
	IndexMaps   [][]uint16 `json:"imaps,omitempty"`
	ProposalID  Hex        `json:"pid,omitempty"`
	NonceShare  Hex        `json:"share,omitempty"`
	// updates
	State     *StateSpec  `json:"state,omitempty"`
	Actor     uint16      `json:"actor,omitempty"`
	ChannelID Hex         `json:"chid,omitempty"`
	Version   uint64      `json:"version,omitempty"`
	Params    *ParamsSpec `json:"params,omitempty"`
	VState    *StateSpec  `json:"vstate,omitempty"`
	VSigs     []SigSpec   `json:"vsigs,omitempty"`
	IndexMap  []uint16    `json:"imap,omitempty"`
	// sync
	Phase  uint8     `json:"phase,omitempty"`
	TxSigs []SigSpec `json:"txsigs,omitempty"`
	NilTx  bool      `json:"niltx,omitempty"`
}

// MsgTypes lists the 17 message type names.
var MsgTypes = []string{
	"Ping", "Pong", "Shutdown", "AuthResponse",
	"LedgerChannelProposal", "LedgerChannelProposalAcc", "SubChannelProposal", "SubChannelProposalAcc",
	"VirtualChannelProposal", "VirtualChannelProposalAcc", "ChannelProposalRej",
	"ChannelUpdate", "VirtualChannelFundingProposal", "VirtualChannelSettlementProposal",
	"ChannelUpdateAcc", "ChannelUpdateRej", "ChannelSync",
}

func id32(h Hex) (id [32]byte) { copy(id[:], h.Bytes()); return }

func (p PropSpec) build() client.BaseChannelProposal {
	al := p.InitBals.Build()
	b := client.BaseChannelProposal{
		ProposalID: id32(p.ProposalID), ChallengeDuration: p.ChallengeDuration, NonceShare: id32(p.NonceShare),
		App: p.App.Build(), InitData: p.App.DataFor(p.Op), InitBals: &al,
	}
	b.FundingAgreement = make(channel.Balances, len(p.Funding))
	for i, row := range p.Funding {
		b.FundingAgreement[i] = buildBals(row)
		if b.FundingAgreement[i] == nil {
			b.FundingAgreement[i] = []channel.Bal{}
		}
	}
	copy(b.Aux[:], p.Aux.Bytes())
	return b
}

func unProp(b client.BaseChannelProposal) *PropSpec {
	p := &PropSpec{ProposalID: HexOf(b.ProposalID[:]), ChallengeDuration: b.ChallengeDuration, NonceShare: HexOf(b.NonceShare[:]),
		App: UnApp(b.App), Funding: UnBalances(b.FundingAgreement), Aux: trimAux(b.Aux)}
	if b.InitBals != nil {
		p.InitBals = UnAlloc(b.InitBals).Norm()
	}
	if op, ok := b.InitData.(*channel.MockOp); ok {
		p.Op = uint64(*op)
	}
	return p
}

func buildIdx(m []uint16) []channel.Index {
	out := make([]channel.Index, len(m))
	for i, x := range m {
		out[i] = channel.Index(x)
	}
	return out
}

func unIdx(m []channel.Index) []uint16 {
	out := make([]uint16, len(m))
	for i, x := range m {
		out[i] = uint16(x)
	}
	return out
}

func (m MsgSpec) update() client.ChannelUpdateMsg {
	return client.ChannelUpdateMsg{
		ChannelUpdate: client.ChannelUpdate{State: m.State.Build(), ActorIdx: channel.Index(m.Actor)},
		Sig:           m.Sig.Bytes(),
	}
}

// Build converts to the go-perun message.
func (m MsgSpec) Build() wire.Msg {
	switch m.Type {
	case "Ping":
		return &wire.PingMsg{PingPongMsg: wire.PingPongMsg{Created: time.Unix(0, m.Created)}}
	case "Pong":
		return &wire.PongMsg{PingPongMsg: wire.PingPongMsg{Created: time.Unix(0, m.Created)}}
	case "Shutdown":
		return &wire.ShutdownMsg{Reason: m.Reason}
	case "AuthResponse":
		return &wire.AuthResponseMsg{Signature: m.Sig.Bytes()}
	case "LedgerChannelProposal":
		peers := make([]map[wallet.BackendID]wire.Address, len(m.Peers))
		for i, p := range m.Peers {
			peers[i] = p.Build()
		}
		return &client.LedgerChannelProposalMsg{BaseChannelProposal: m.Prop.build(), Participant: m.Participant.Build(), Peers: peers}
	case "LedgerChannelProposalAcc":
		return &client.LedgerChannelProposalAccMsg{
			BaseChannelProposalAcc: client.BaseChannelProposalAcc{ProposalID: id32(m.ProposalID), NonceShare: id32(m.NonceShare)},
			Participant:            m.Participant.Build()}
	case "SubChannelProposal":
		return &client.SubChannelProposalMsg{BaseChannelProposal: m.Prop.build(), Parent: id32(m.Parent)}
	case "SubChannelProposalAcc":
		return &client.SubChannelProposalAccMsg{BaseChannelProposalAcc: client.BaseChannelProposalAcc{ProposalID: id32(m.ProposalID), NonceShare: id32(m.NonceShare)}}
	case "VirtualChannelProposal":
		peers := make([]map[wallet.BackendID]wire.Address, len(m.Peers))
		for i, p := range m.Peers {
			peers[i] = p.Build()
		}
		parents := make([]channel.ID, len(m.Parents))
		for i, p := range m.Parents {
			parents[i] = id32(p)
		}
		imaps := make([][]channel.Index, len(m.IndexMaps))
		for i, im := range m.IndexMaps {
			imaps[i] = buildIdx(im)
		}
		return &client.VirtualChannelProposalMsg{BaseChannelProposal: m.Prop.build(), Proposer: m.Participant.Build(), Peers: peers, Parents: parents, IndexMaps: imaps}
	case "VirtualChannelProposalAcc":
		return &client.VirtualChannelProposalAccMsg{
			BaseChannelProposalAcc: client.BaseChannelProposalAcc{ProposalID: id32(m.ProposalID), NonceShare: id32(m.NonceShare)},
			Responder:              m.Participant.Build()}
	case "ChannelProposalRej":
		return &client.ChannelProposalRejMsg{ProposalID: id32(m.ProposalID), Reason: m.Reason}
	case "ChannelUpdate":
		u := m.update()
		return &u
	case "VirtualChannelFundingProposal":
		return &client.VirtualChannelFundingProposalMsg{ChannelUpdateMsg: m.update(),
			Initial:  channel.SignedState{Params: m.Params.Build(), State: m.VState.Build(), Sigs: BuildSigs(m.VSigs)},
			IndexMap: buildIdx(m.IndexMap)}
	case "VirtualChannelSettlementProposal":
		return &client.VirtualChannelSettlementProposalMsg{ChannelUpdateMsg: m.update(),
			Final: channel.SignedState{Params: m.Params.Build(), State: m.VState.Build(), Sigs: BuildSigs(m.VSigs)}}
	case "ChannelUpdateAcc":
		return &client.ChannelUpdateAccMsg{ChannelID: id32(m.ChannelID), Version: m.Version, Sig: m.Sig.Bytes()}
	case "ChannelUpdateRej":
		return &client.ChannelUpdateRejMsg{ChannelID: id32(m.ChannelID), Version: m.Version, Reason: m.Reason}
	case "ChannelSync":
		s := &client.ChannelSyncMsg{Phase: channel.Phase(m.Phase)}
		if !m.NilTx {
			s.CurrentTX = channel.Transaction{State: m.State.Build(), Sigs: BuildSigs(m.TxSigs)}
		}
		return s
	}
	panic("gen: unknown message type " + m.Type)
}

func unPeers(p []map[wallet.BackendID]wire.Address) []WireMap {
	out := make([]WireMap, len(p))
	for i, m := range p {
		out[i] = UnWireMap(m)
	}
	return out
}

func unUpdate(out *MsgSpec, u *client.ChannelUpdateMsg) {
	st := UnState(u.State).Norm()
	out.State = &st
	out.Actor = uint16(u.ActorIdx)
	out.Sig = HexOf(u.Sig)
}

// UnMsg converts a go-perun message back into its (normalised) spec.
func UnMsg(msg wire.Msg) MsgSpec {
	switch v := msg.(type) {
	case *wire.PingMsg:
		return MsgSpec{Type: "Ping", Created: v.Created.UnixNano()}
	case *wire.PongMsg:
		return MsgSpec{Type: "Pong", Created: v.Created.UnixNano()}
	case *wire.ShutdownMsg:
		return MsgSpec{Type: "Shutdown", Reason: v.Reason}
	case *wire.AuthResponseMsg:
		return MsgSpec{Type: "AuthResponse", Sig: HexOf(v.Signature)}
	case *client.LedgerChannelProposalMsg:
		return MsgSpec{Type: "LedgerChannelProposal", Prop: unProp(v.BaseChannelProposal), Participant: UnWalletMap(v.Participant), Peers: unPeers(v.Peers)}
	case *client.LedgerChannelProposalAccMsg:
		return MsgSpec{Type: "LedgerChannelProposalAcc", ProposalID: HexOf(v.ProposalID[:]), NonceShare: HexOf(v.NonceShare[:]), Participant: UnWalletMap(v.Participant)}
	case *client.SubChannelProposalMsg:
		return MsgSpec{Type: "SubChannelProposal", Prop: unProp(v.BaseChannelProposal), Parent: HexOf(v.Parent[:])}
	case *client.SubChannelProposalAccMsg:
		return MsgSpec{Type: "SubChannelProposalAcc", ProposalID: HexOf(v.ProposalID[:]), NonceShare: HexOf(v.NonceShare[:])}
	case *client.VirtualChannelProposalMsg:
		out := MsgSpec{Type: "VirtualChannelProposal", Prop: unProp(v.BaseChannelProposal), Participant: UnWalletMap(v.Proposer), Peers: unPeers(v.Peers)}
		out.Parents = make([]Hex, len(v.Parents))
		for i, p := range v.Parents {
			out.Parents[i] = HexOf(p[:])
		}
		out.IndexMaps = make([][]uint16, len(v.IndexMaps))
		for i, im := range v.IndexMaps {
			out.IndexMaps[i] = unIdx(im)
		}
		return out
	case *client.VirtualChannelProposalAccMsg:
		return MsgSpec{Type: "VirtualChannelProposalAcc", ProposalID: HexOf(v.ProposalID[:]), NonceShare: HexOf(v.NonceShare[:]), Participant: UnWalletMap(v.Responder)}
	case *client.ChannelProposalRejMsg:
		return MsgSpec{Type: "ChannelProposalRej", ProposalID: HexOf(v.ProposalID[:]), Reason: v.Reason}
	case *client.ChannelUpdateMsg:
		out := MsgSpec{Type: "ChannelUpdate"}
		unUpdate(&out, v)
		return out
	case *client.VirtualChannelFundingProposalMsg:
		out := MsgSpec{Type: "VirtualChannelFundingProposal"}
		unUpdate(&out, &v.ChannelUpdateMsg)
		p := UnParams(v.Initial.Params)
		s := UnState(v.Initial.State).Norm()
		out.Params, out.VState, out.VSigs, out.IndexMap = &p, &s, UnSigs(v.Initial.Sigs), unIdx(v.IndexMap)
		return out
	case *client.VirtualChannelSettlementProposalMsg:
		out := MsgSpec{Type: "VirtualChannelSettlementProposal"}
		unUpdate(&out, &v.ChannelUpdateMsg)
		p := UnParams(v.Final.Params)
		s := UnState(v.Final.State).Norm()
		out.Params, out.VState, out.VSigs = &p, &s, UnSigs(v.Final.Sigs)
		return out
	case *client.ChannelUpdateAccMsg:
		return MsgSpec{Type: "ChannelUpdateAcc", ChannelID: HexOf(v.ChannelID[:]), Version: v.Version, Sig: HexOf(v.Sig)}
	case *client.ChannelUpdateRejMsg:
		return MsgSpec{Type: "ChannelUpdateRej", ChannelID: HexOf(v.ChannelID[:]), Version: v.Version, Reason: v.Reason}
	case *client.ChannelSyncMsg:
		out := MsgSpec{Type: "ChannelSync", Phase: uint8(v.Phase)}
		if v.CurrentTX.State == nil {
			out.NilTx = true
		} else {
			s := UnState(v.CurrentTX.State).Norm()
			out.State, out.TxSigs = &s, UnSigs(v.CurrentTX.Sigs)
		}
		return out
	}
	panic(fmt.Sprintf("gen.UnMsg: unknown message %T", msg))
}

// Norm normalises a message spec so that it compares equal (as JSON) with
// UnMsg(Build()) of itself when nothing was lost.
func (m MsgSpec) Norm() MsgSpec {
	c := m
	if c.Prop != nil {
		p := *c.Prop
		p.InitBals = p.InitBals.Norm()
		if p.App.Kind == "" {
			p.App.Kind = "none"
		}
		if p.App.Kind != "mock" {
			p.Op = 0
		}
		if p.Funding == nil {
			p.Funding = [][]Big{}
		}
		c.Prop = &p
	}
	if c.State != nil {
		s := c.State.Norm()
		c.State = &s
	}
	if c.VState != nil {
		s := c.VState.Norm()
		c.VState = &s
	}
	switch c.Type {
	case "LedgerChannelProposal", "LedgerChannelProposalAcc", "VirtualChannelProposal", "VirtualChannelProposalAcc":
		if c.Participant == nil {
			c.Participant = WalletMap{}
		}
	}
	switch c.Type {
	case "LedgerChannelProposal", "VirtualChannelProposal":
		if c.Peers == nil {
			c.Peers = []WireMap{}
		}
	}
	if c.Type == "VirtualChannelProposal" {
		if c.Parents == nil {
			c.Parents = []Hex{}
		}
		if c.IndexMaps == nil {
			c.IndexMaps = [][]uint16{}
		}
		for i := range c.IndexMaps {
			if c.IndexMaps[i] == nil {
				c.IndexMaps[i] = []uint16{}
			}
		}
	}
	if c.Type == "VirtualChannelFundingProposal" && c.IndexMap == nil {
		c.IndexMap = []uint16{}
	}
	return c
}

// EnvSpec describes a wire.Envelope.
type EnvSpec struct {
	Sender    WireMap `json:"sender"`
	Recipient WireMap `json:"recipient"`
	Msg       MsgSpec `json:"msg"`
}

// Build converts to the go-perun envelope.
func (e EnvSpec) Build() *wire.Envelope {
	return &wire.Envelope{Sender: e.Sender.Build(), Recipient: e.Recipient.Build(), Msg: e.Msg.Build()}
}

// UnEnv converts back.
func UnEnv(e *wire.Envelope) EnvSpec {
	return EnvSpec{Sender: UnWireMap(e.Sender), Recipient: UnWireMap(e.Recipient), Msg: UnMsg(e.Msg)}
}

// Norm normalises.
func (e EnvSpec) Norm() EnvSpec {
	c := e
	if c.Sender == nil {
		c.Sender = WireMap{}
	}
	if c.Recipient == nil {
		c.Recipient = WireMap{}
	}
	c.Msg = e.Msg.Norm()
	return c
}

// ---------------------------------------------------------------- message generators

func genHex(n int, label string) *rapid.Generator[Hex] {
	return rapid.Custom(func(t *rapid.T) Hex {
		return HexOf(rapid.SliceOfN(rapid.Byte(), n, n).Draw(t, label))
	})
}

func genString() *rapid.Generator[string] {
	return rapid.Custom(func(t *rapid.T) string {
		switch rapid.IntRange(0, 5).Draw(t, "strkind") {
		case 0:
			return ""
		case 1:
			n := rapid.IntRange(1000, 3000).Draw(t, "strlen")
			b := make([]byte, n)
			for i := range b {
				b[i] = byte('a' + i%26)
			}
			return string(b)
		default:
			return rapid.StringN(0, 40, 200).Draw(t, "str")
		}
	})
}

// PropOpts steers GenProp.
type PropOpts struct{ Parts int }

// GenProp draws a base proposal with a valid allocation.
func GenProp(parts int) *rapid.Generator[*PropSpec] {
	return rapid.Custom(func(t *rapid.T) *PropSpec {
		p := &PropSpec{}
		p.ProposalID = genHex(32, "pid").Draw(t, "pid")
		p.ChallengeDuration = rapid.Uint64().Draw(t, "cd")
		p.NonceShare = genHex(32, "share").Draw(t, "share")
		p.App = GenApp().Draw(t, "app")
		if p.App.Kind == "mock" {
			p.Op = uint64(rapid.IntRange(0, 6).Draw(t, "op"))
		}
		p.InitBals = GenAlloc(AllocOpts{Parts: parts, MaxLocked: 2}).Draw(t, "init")
		switch rapid.IntRange(0, 3).Draw(t, "fundkind") {
		case 0:
			p.Funding = [][]Big{}
		case 1, 2:
			p.Funding = make([][]Big, len(p.InitBals.Bals))
			for i := range p.Funding {
				p.Funding[i] = append([]Big{}, p.InitBals.Bals[i]...)
			}
		default:
			na := rapid.IntRange(1, 3).Draw(t, "fa")
			np := rapid.IntRange(1, 3).Draw(t, "fp")
			p.Funding = make([][]Big, na)
			for i := range p.Funding {
				p.Funding[i] = make([]Big, np)
				for j := range p.Funding[i] {
					p.Funding[i][j] = GenBal().Draw(t, "fbal")
				}
			}
		}
		na := []int{0, 0, 1, 256}[rapid.IntRange(0, 3).Draw(t, "auxlen")]
		var a channel.Aux
		copy(a[:], rapid.SliceOfN(rapid.Byte(), na, na).Draw(t, "aux"))
		p.Aux = trimAux(a)
		return p
	})
}

func genPeers(min, max int) *rapid.Generator[[]WireMap] {
	return rapid.Custom(func(t *rapid.T) []WireMap {
		n := rapid.IntRange(min, max).Draw(t, "npeers")
		out := make([]WireMap, n)
		for i := range out {
			out[i] = GenWireMap().Draw(t, "peer")
		}
		return out
	})
}

func genIdxMap() *rapid.Generator[[]uint16] {
	return rapid.Custom(func(t *rapid.T) []uint16 {
		n := rapid.IntRange(0, 4).Draw(t, "nidx")
		out := make([]uint16, n)
		for i := range out {
			if rapid.Bool().Draw(t, "smallidx") {
				out[i] = uint16(rapid.IntRange(0, 3).Draw(t, "idx"))
			} else {
				out[i] = rapid.Uint16().Draw(t, "idx")
			}
		}
		return out
	})
}

// GenMsg draws a well-formed message of the given type ("" = any).
func GenMsg(typ string) *rapid.Generator[MsgSpec] {
	return rapid.Custom(func(t *rapid.T) MsgSpec {
		if typ == "" {
			typ = rapid.SampledFrom(MsgTypes).Draw(t, "msgtype")
		}
		m := MsgSpec{Type: typ}
		pid := genHex(32, "pid")
		sig64 := genHex(64, "sig")
		state := GenState(AllocOpts{MaxLocked: 3})
		switch typ {
		case "Ping", "Pong":
			m.Created = rapid.Int64().Draw(t, "created")
		case "Shutdown":
			m.Reason = genString().Draw(t, "reason")
		case "AuthResponse":
			n := rapid.IntRange(0, 100).Draw(t, "siglen")
			m.Sig = genHex(n, "sig").Draw(t, "authsig")
		case "LedgerChannelProposal":
			m.Prop = GenProp(0).Draw(t, "prop")
			m.Participant = GenWalletMap().Draw(t, "participant")
			m.Peers = genPeers(2, 4).Draw(t, "peers")
		case "LedgerChannelProposalAcc", "VirtualChannelProposalAcc":
			m.ProposalID, m.NonceShare = pid.Draw(t, "pid"), pid.Draw(t, "share")
			m.Participant = GenWalletMap().Draw(t, "participant")
		case "SubChannelProposal":
			m.Prop = GenProp(0).Draw(t, "prop")
			m.Parent = pid.Draw(t, "parent")
		case "SubChannelProposalAcc":
			m.ProposalID, m.NonceShare = pid.Draw(t, "pid"), pid.Draw(t, "share")
		case "VirtualChannelProposal":
			m.Prop = GenProp(0).Draw(t, "prop")
			m.Participant = GenWalletMap().Draw(t, "participant")
			m.Peers = genPeers(0, 4).Draw(t, "peers")
			np := rapid.IntRange(0, 3).Draw(t, "nparents")
			m.Parents = make([]Hex, np)
			for i := range m.Parents {
				m.Parents[i] = pid.Draw(t, "parent")
			}
			ni := rapid.IntRange(0, 3).Draw(t, "nimaps")
			m.IndexMaps = make([][]uint16, ni)
			for i := range m.IndexMaps {
				m.IndexMaps[i] = genIdxMap().Draw(t, "imap")
			}
		case "ChannelProposalRej":
			m.ProposalID = pid.Draw(t, "pid")
			m.Reason = genString().Draw(t, "reason")
		case "ChannelUpdate":
			s := state.Draw(t, "state")
			m.State, m.Actor, m.Sig = &s, rapid.Uint16().Draw(t, "actor"), sig64.Draw(t, "sig")
		case "VirtualChannelFundingProposal", "VirtualChannelSettlementProposal":
			s := state.Draw(t, "state")
			m.State, m.Actor, m.Sig = &s, rapid.Uint16().Draw(t, "actor"), sig64.Draw(t, "sig")
			vs := state.Draw(t, "vstate")
			m.VState = &vs
			np := len(vs.Alloc.Bals[0])
			p := GenParams(0).Draw(t, "params")
			m.Params = &p
			m.VSigs = GenSigs(np).Draw(t, "vsigs")
			if typ == "VirtualChannelFundingProposal" {
				m.IndexMap = genIdxMap().Draw(t, "imap")
			}
		case "ChannelUpdateAcc":
			m.ChannelID, m.Version, m.Sig = pid.Draw(t, "chid"), rapid.Uint64().Draw(t, "ver"), sig64.Draw(t, "sig")
		case "ChannelUpdateRej":
			m.ChannelID, m.Version, m.Reason = pid.Draw(t, "chid"), rapid.Uint64().Draw(t, "ver"), genString().Draw(t, "reason")
		case "ChannelSync":
			m.Phase = uint8(rapid.IntRange(0, 11).Draw(t, "phase"))
			if rapid.IntRange(0, 7).Draw(t, "niltx") == 0 {
				m.NilTx = true
			} else {
				s := state.Draw(t, "state")
				m.State = &s
				m.TxSigs = GenSigs(len(s.Alloc.Bals[0])).Draw(t, "txsigs")
			}
		}
		return m
	})
}

// GenEnv draws a well-formed envelope.
func GenEnv(typ string) *rapid.Generator[EnvSpec] {
	return rapid.Custom(func(t *rapid.T) EnvSpec {
		return EnvSpec{
			Sender:    GenWireMap().Draw(t, "sender"),
			Recipient: GenWireMap().Draw(t, "recipient"),
			Msg:       GenMsg(typ).Draw(t, "msg"),
		}
	})
}
